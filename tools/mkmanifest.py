#!/venv/bin/python
"""Writes /verif/MANIFEST.json from the table below (kept valid at all times)."""
import json
from pathlib import Path

V = Path(__file__).resolve().parent.parent
TB = ("Trusted: Coq 8.16.1 kernel + vm_compute (no native_compute), coqchk in thorough mode; tools/py2v.py for generated "
      "definitions; the Python harness (in-process driver, virtual clock, response tokenizer, canonicalisation); no "
      "extraction. Theorems are about the Gallina model/spec; the tie to /repo is re-established on every run by "
      "regeneration (G) and/or by running model and implementation on the same inputs (X). ")

CHECKS = {
    "C15": dict(
        technique="Coq proof over py2v-generated sequence_set_to_list + differential correspondence vs Coq spec",
        text="Theorems (all sets, all mailbox sizes, by induction) that the translated sequence_set_to_list returns exactly "
             "the denotation of the set or Bad; the search matchers and every set-taking command are tied to the same "
             "denotation by correspondence runs evaluated inside Coq.",
        note=TB + "Modelled not verified: parse.py's set parser (C08), the command glue around the function (compared by X only).",
        ref="6/C15"),
}
CHECKS["C18"] = dict(
    technique="Coq refinement proof (generated throttle vs reference automaton) + differential correspondence on the real login paths",
    text="Theorem: for every timed attempt sequence of any length under a non-decreasing clock the py2v-translated "
         "check_allow/login_failed composed as do_login composes them return exactly the verdicts of a reference "
         "automaton written from the property text; lockout, no-false-lockout and expiry are corollaries. The real LOGIN "
         "and POP3 PASS paths and the pre-authentication gate are tied by correspondence runs under a virtual clock.",
    note=TB + "Modelled not verified: password hashing (oracle pw_ok), the subprocess spawn, float clock values (runs use integers).",
    ref="6/C18")
MBOX_NOTE = (TB + "Modelled not verified: Python's mailbox.MH and email packages, SQLite, asyncio (commands are atomic "
             "steps; interleavings inside a command belong to C10), the response tokenizer of the harness. The model's ghost "
             "view is tied to the real byte streams by the correspondence runs and by the replay oracle run on the "
             "implementation's own output.")
CHECKS["C01"] = dict(
    technique="Coq invariant proof over all histories of a command-atomic world model + step-by-step differential correspondence",
    text="Theorem: in every world reachable by any history (any number of sessions/mailboxes/commands/deliveries/polls) "
         "every session's replayed view is legal, its queued notifications replay exactly to the server's list (FIFO), "
         "flush points synchronise, numbers are accepted on a synced view, and no EXPUNGE is sent during the issuer's own "
         "non-UID FETCH/STORE/SEARCH. The model is tied to the real Authenticated/Mailbox/IMAPUserServer objects by "
         "comparing everything each session is sent, step by step, on generated multi-session histories.",
    note=MBOX_NOTE, ref="6/C01")
CHECKS["C02"] = dict(
    technique="Coq invariant + step-relation proofs over all histories of the world model; differential correspondence; UID ledger oracle",
    text="Theorems: in every reachable world UIDs are strictly ascending and below UIDNEXT; over any further history UIDNEXT "
         "never decreases, UIDVALIDITY never changes and no UID below UIDNEXT is ever assigned to a new message; APPENDUID "
         "is the old UIDNEXT and names the appended message. Tied to the code by step-by-step comparison of generated "
         "histories (restarts, deliveries, packing) and by a ledger oracle over white-box snapshots; UIDVALIDITY of "
         "deleted/recreated (also subscribed, also with inferiors) and renamed mailboxes is checked on the real commands; the "
         "ledger and binding oracles also run on histories with deliveries the server cannot see yet (mtime unchanged). "
         "Message numbers are positive and strictly ascending in every reachable world (Proofs/MboxKeys.v), hence every file a "
         "resync takes in - a copy or another process's delivery - is found under its own number with its own content and a fresh "
         "UID (COPYUID/APPENDUID by number, Proofs/CopyUid.v; the tail-of-the-UID-list variant is refuted); on the implementation: "
         "deliveries dropped into the destination during COPY/MOVE/APPEND, sparse folders with a batch of arrivals then a restart.",
    note=MBOX_NOTE + " RENAME/DELETE are not in Model/Mbox.v (implementation-side oracle only); crash points belong to C11.", ref="6/C02")
CHECKS["C03"] = dict(
    technique="Coq step-relation proof (binding of UID to content is stable over any history) + differential correspondence with content-tagged messages",
    text="Theorems: a message that still exists under a UID after any further history (expunges, moves, packing, deliveries, "
         "copies, restarts) has the same content and internal date; one message per UID; the UID form of a command resolves "
         "to exactly the positions whose UID is in the set's denotation. Tied to the code by comparing every body fetch of "
         "generated histories (packing forced at 4 messages) with the model and by a binding oracle over the real files; plus a "
         "delivery injected between the management task's resync and its pack of a sparse folder.",
    note=MBOX_NOTE, ref="6/C03")
CHECKS["C04"] = dict(
    technique="Coq refinement + invariant proofs (STORE = reference set operations; Seen/unseen complement in every reachable world) over generated flag maps; differential correspondence; flag oracle and probes",
    text="Theorems: for every flag list and message STORE +/-/= is union/difference/replacement-keeping-Recent of the "
         "reference model; STORE cannot set or clear \\Recent; \\Seen and the MH marker `unseen` are exact complements on "
         "every message of every reachable world; flags<->sequence names is a bijection outside the reserved spellings and "
         "equals the maps generated from constants.py. Every FETCH/STORE response and notification of generated histories is "
         "compared with the model; end-of-history probes compare FETCH FLAGS with SEARCH by every flag.",
    note=MBOX_NOTE + " Keyword comparison is exact-spelling.", ref="6/C04")
CHECKS["C05"] = dict(
    technique="Coq proofs of exactness (expunge = filter, add = append of one message per source) and read-only sessions; differential correspondence; before/after snapshot oracle",
    text="Theorems: EXPUNGE/CLOSE/UID EXPUNGE/MOVE remove exactly the selected messages and nothing else changes; APPEND/COPY/"
         "MOVE/delivery add exactly one message per source in order with the same content, date and flags plus \\Recent and "
         "UIDs from UIDNEXT; no step ever loses another message; commands of an EXAMINE session change no message or flag. "
         "Tied by step-by-step comparison and by an exactness oracle over white-box snapshots around every command; plus UID "
         "EXPUNGE of part of the \\Deleted messages after message numbers and UIDs have drifted apart.",
    note=MBOX_NOTE, ref="6/C05")
CHECKS["C13"] = dict(
    technique="Coq proofs about the resync of the world model (deliveries appended, sessions told in order, Seen iff not unseen) and about the content written to / derived from .mh_sequences (Model/MhSeq.v, membership characterisations) + correspondence with an external MH agent and with the real Mailbox sequence methods + .mh_sequences oracle",
    text="Theorems: messages delivered by an MH agent are appended in MH-number order with UIDs >= the old UIDNEXT and \\Recent, "
         "existing messages untouched, every selected session is told in FIFO order; \\Seen iff not in `unseen` on every "
         "message of every reachable world; removal is exact. The .mh_sequences clause is decided on the implementation: the "
         "file is read as an MH tool would after every command and compared with what the IMAP sessions see; also on "
         "histories with deliveries the server cannot see yet (same second as its last look) and with deliveries injected "
         "while a command is being carried out (after admission, before it writes .mh_sequences). Model/MhSeq.v models "
         "Mailbox.set_sequences_in_folder and _get_sequences_update_seen as set computations: proved for all inputs that the dict "
         "handed to MH.set_sequences lists every key the server knows exactly as the server has it, keeps what an MH tool said about "
         "deliveries not taken in yet, forgets removed keys and invents nothing; that on reading Seen = messages minus unseen, Recent "
         "gains the new keys and every other sequence is untouched. Tied by running the real methods on generated inputs.",
    note=MBOX_NOTE + " The file format of .mh_sequences is stdlib mailbox.MH (agreement of world model and file: oracle on the real file); deliveries the "
         "server has not noticed and deliveries inside a command are outside the model (implementation-side oracles only).",
    category="proof", ref="6/C13")
CHECKS["C12"] = dict(
    technique="Coq proof of the persistence codec round trip (on run lists and on the persisted text itself) and of restart-as-identity on the world model; correspondence on the text (valid and malformed) and observe/restart/observe correspondence on the real server",
    text="Theorems: expand(compact l) = l for every strictly ascending list (the persisted form of UID lists, message keys "
         "and sequences), on run lists and on the TEXT (Model/CodecText.v models sorted/groupby/join/strip/split/isdigit/int on "
         "bytes): expand_text (compact_text l) = Some l for non-negative keys, texts are injective, hold only digits, commas and "
         "dashes, and whatever is read back is strictly ascending; in the world model a restart keeps every mailbox (UIDVALIDITY, UIDNEXT, messages, UIDs, order, "
         "flags) and the C01/C02 invariants. That the real restart is that step is decided per run: everything a client can "
         "observe through LIST/LSUB/STATUS/UID FETCH is recorded before shutdown and after restart on generated histories "
         "(sparse UIDs, packing, keywords, placeholders, renames, subscriptions, pending deliveries) and compared.",
    note=TB + "Modelled not verified: SQLite, the commit discipline of each command (decided by the observe/restart/observe runs), "
         "int() outside the alphabet {0-9 , -} (white space, sign, underscores) and the 4300-digit limit of str/int.", ref="6/C12")
CHECKS["C20"] = dict(
    technique="Coq proof over generated dot_stuff and end_multiline (py2v) + hand model of the POP3 session tied by differential correspondence against the real POP3ClientProxy/POP3CommandHandler",
    text="Proof: for all byte strings (stuffing, un-stuffing, framing of the generated dot_stuff) and for all sequences of POP3 "
         "commands interleaved with IMAP appends/expunges/packs on the model (snapshot stability, UIDL = IMAP UID, QUIT removes "
         "exactly the marked messages that still exist, RSET/drop keep everything, announced size = delivered octets); "
         "model = code by per-run differential testing; the model's terminator is proved equal to the generated end_multiline, and the "
         "wire round trip is stated entirely on generated code.",
    note=TB + "Model/Pop3M.v is hand-written (_valid_msg_num, lazy size cache, QUIT) and tied only by correspondence; "
         "oracles of the model: the e-mail library's renderings of a message, Python's int() on arguments, Mailbox.expunge/append/"
         "pack as atomic INBOX updates (C05/C02/C13), UIDs increasing and never reused (C02); commands atomic (QUIT's expunge "
         "bypassing the mailbox queue is C10); LIST/UIDL multi-line framing is checked by a strict tokenizer, not proved.", ref="6/C20")
CHECKS["C09"] = dict(
    technique="Coq proof over a hand-written model of normpath/join/validator/command path derivations + differential correspondence (os.path and the real validator, evaluated in Coq) + jailed end-to-end attack run judged by the Coq model",
    text="Theorems (all names, references and patterns as arbitrary strings; all commands; all histories of table operations; "
         "by induction, no bound): every path a command derives from a name the validator accepts is lexically inside the mail "
         "root; the validator refuses exactly the names that after its own normalisation are absolute or leave the root at any "
         "step; refused names make the whole command fail before any path is derived; all mailbox-table rows stay inside. Tied "
         "to /repo on every run by exhaustive small-alphabet plus random comparison of model vs os.path and canonical_mbox_name, "
         "and by a jailed run of every name position x encoding x attack name with file-system diff, response inspection and "
         "model-predicted refusals.",
    note=TB + "Modelled not verified: kernel path resolution (lexical, no symlinks inside the root; RENAME's transient symlink taken "
         "as the final rename); pathlib/mailbox.MH joining as os.path.join (compared modulo normpath each run); str.lower() "
         "(checked over all of Unicode each run); the parser handing handlers normpath(name); cmd_paths is an over-approximating "
         "transcription of the handlers' path derivations tied by the end-to-end run; SQLite LIKE row selection left arbitrary.",
    ref="6/C09")
CHECKS["C06"] = dict(
    technique="Coq proofs (outcome table of command(); every step of the world model answers its issuer exactly once, last) + probes of every command x argument class x session state through the real IMAPClientProxy.run under a virtual clock",
    text="Theorems: BaseClientHandler.command pushes exactly one tagged line for every handler outcome (none when deferred by "
         "IDLE) and keeps the connection; in every reachable world of Model/Mbox.v queued notifications are untagged and every "
         "command step sends its issuer exactly one tagged response as the last thing, for all arguments. On the implementation "
         "every command template x message-set class x mailbox class x session state (also after a restart) is sent through "
         "the real proxy loop: one complete tagged line with the right tag, virtual elapsed time below COMMAND_TIMEOUT (never "
         "the watchdog), session usable afterwards unless BYE. Also two-connection races (DELETE/RENAME/EXPUNGE of a mailbox on one "
         "connection, STATUS/SELECT/EXAMINE/APPEND/DELETE/LIST for it on another a few event-loop turns later): each command answered "
         "once, not by the watchdog.",
    note=TB + "The outcome table of command() is a hand model compared with the real method driven by stub handlers; 'promptly' is "
         "measured under the virtual clock (timers free to fire); linearizability of concurrent sessions is C10's.", ref="6/C06")
CHECKS["C10"] = dict(
    technique="Coq proofs (admission relation sound for declared footprints; commuting steps => interleaving = serial, n commands; hold-one-mailbox discipline => no deadlock; two-step FETCH/STORE/SEARCH: invariant and no-EXPUNGE under every interleaving) + seeded schedule exploration with a linearizability oracle evaluated in Coq",
    text="PARTIAL. Theorems: would_conflict (hand model, compared exhaustively with Mailbox.would_conflict) never admits a command "
         "whose declared footprint clashes with a running one (one asymmetric FETCH case excluded and exhibited); if steps of "
         "different commands commute, every interleaving of any number of commands equals their serial execution; commands that "
         "never ask for a mailbox while holding one (single-mailbox commands, COPY, MOVE as copy()/do_move() queue them) cannot "
         "deadlock, with mutual exclusion preserved; FETCH/STORE/SEARCH as the two steps they are (arrival with the gate on the "
         "notification queue; execution after admission with the gate repeated): under EVERY interleaving of arrivals, executions "
         "and whole commands each session's replayed view stays legal and a non-UID FETCH/STORE/SEARCH is sent no EXPUNGE "
         "(Model/Phases.v; with the second gate removed the model exhibits the desynchronisation that commit 1902352 repaired). "
         "On the implementation: after generated histories 2-3 sessions issue commands "
         "together under seeded perturbation of every I/O completion; all must complete (never by the watchdog) and results + "
         "final contents AND the data each issuer was sent for the messages it addressed must equal SOME order of the commands' "
         "documented steps in the proved sequential model (a poll of the management task may fall anywhere).",
    note=TB + "Assumed: asyncio eventually runs every enabled step; command bodies have the declared footprints; threads appear as "
         "completion events; the schedule space is sampled (seeded), not enumerated.", ref="6/C10")
CHECKS["C14"] = dict(
    technique="Coq proof by structural induction over the RFC 3501 search-key AST (evaluator mirroring parse.py desugaring, IMAPSearch._match_* and the Mailbox.search loop, against a denotational semantics) + differential correspondence on real SEARCH/UID SEARCH commands + metamorphic laws",
    text="Theorems (every program of any nesting depth, every mailbox, no side conditions): the evaluator returns exactly the "
         "ascending sequence numbers of the messages satisfying the denotation; NOT is complement, OR is union, lists are "
         "intersection; NEW/OLD/UN* are their combinations; set keys address Spec/SetSem.denote; UID SEARCH is the same list "
         "mapped through the UID table. Tied to search.py, parse.py, mbox.py by running generated programs as real commands and "
         "comparing, inside Coq, with the model and the denotation evaluated over the implementation's own FETCH answers.",
    note=TB + "Modelled not verified: Python's email package (header fields, decoding, msg_as_string, parsedate: supplied from the "
         "server's own FETCH output); str.lower as ASCII folding; set matchers and parser desugaring are hand-mirrored and tied by "
         "correspondence; CHARSET and non-ASCII strings not exercised; keyword comparison by exact spelling.", ref="6/C14")
CHECKS["C19"] = dict(
    technique="Coq proof over a byte-level model of the framing loops (induction over command and literal lists, loop invariant over all streams, round-trip) + differential correspondence against the real asyncio loops under exhaustive and random segmentations",
    text="Theorems (all streams made of commands with any (non-)synchronising literals, blank lines, over-limit literals/commands; "
         "all limits): the front-end model hands on exactly the denoted commands, sends + exactly for synchronising literals, one "
         "BAD per refusal, restarts cleanly after every refusal; every message handed on is within MAX_INPUT_SIZE; deframe o frame "
         "= id; the response relay is the identity on CRLF-terminated chunks of any length. Tied on every run: IMAPClient.start, "
         "message(), IMAPClientProxy.run, msgs_to_client (both servers), POP3Client.start run on generated streams under all "
         "segmentations into <=3/4 reads (short) and byte-by-byte/random ones (long), every prefix observation compared with the "
         "model in Coq; regex text, MAX_INPUT_SIZE, terminators and reader limits pinned.",
    note=TB + "Modelled not verified: asyncio.StreamReader.readuntil/readexactly/read (segmentation independence is measured, not "
         "proved); bytes.rstrip; re; int()'s 4300-digit limit. MAX_INPUT_SIZE is lowered on the modules for reachability.", ref="6/C19")
CHECKS["C16"] = dict(
    technique="Coq algebraic laws of the data-item algebra over an oracle rendering (for all messages / byte lists / ranges) + differential correspondence at function level and end to end with oracle measurement",
    text="Theorems, for every message and every pair hdr/body with hdr ending in CRLF, every section and every <o.n>: RFC822.SIZE "
         "= |BODY[]|; RFC822* = BODY[...] counterparts; a partial is exactly that slice; BODY[HEADER]++BODY[TEXT] = BODY[] iff the "
         "body is non-empty (empty body refuted, known finding); every literal count equals its data length; items end in CRLF. "
         "Tie on every run: real tails of FetchAtt.body / msg_as_bytes / get_msg_size and RFC822*/partial handling compared with "
         "the model inside Coq; witness + fixture + generated MIME messages APPENDed and fetched through a real session, every "
         "equation evaluated on the real literals, repeat fetch and COPY compared octet for octet, APPEND fidelity measured.",
    note=TB + "PARTIAL by nature: Python's email parser/generator is an oracle (hdr/body universally quantified, decomposition "
         "measured); 'lines end in CRLF' inside the text and APPEND fidelity are measured, not proved. Four known findings.", ref="6/C16")
CHECKS["C07"] = dict(
    technique="Coq round-trip/no-raw-specials/balance/completeness theorems of the string encoder (proved equal to utils.imap_string as regenerated from the source by py2v) and line assemblers against an independent reader + formatter-level and end-to-end differential checks through the real IMAPClientProxy with a strict response parser",
    text="Theorems for all byte lists: decoding enc_string gives back the value (quoted, or literal with exact count for CR/LF/NUL); "
         "the quoted form has no raw specials; envelopes, address lists, parameter lists, literals are balanced; LIST/LSUB/STATUS/"
         "SEARCH/FETCH lines and NO/BAD/exception tagged lines are complete CRLF-terminated responses. Tie: the real encoders and "
         "tagged-line arms compared with the model inside Coq; every write of the real proxy for hostile messages, mailbox names, "
         "keywords, ~110 error-path commands and IDLE parsed strictly; decoded ENVELOPE/BODYSTRUCTURE/LIST/LSUB/STATUS strings "
         "compared with header values, parameters and on-disk names.",
    note=TB + "Trusted: harness/resptok.py (cross-checked against Spec/RespTok.v each run); Python's email package as oracle for "
         "header values. Leniencies: 8-bit octets in strings, empty resp-text after a code, three spacing deviations, ']' in "
         "keywords. Exception arm stated for NUL-free texts.", ref="6/C07")
CHECKS["C11"] = dict(
    technique="Coq proof over an effect-trace model of the commit protocol and the restart reconciliation (every subset of a command's file effects) + exhaustive crash-point sweep of the real server (kill before every primitive durable effect of representative histories)",
    text="PARTIAL. Theorems: if the process dies before a command's commit after ANY subset of the known message files has been "
         "removed and any files have been added under unknown numbers, the restart never gives a known UID to another message "
         "and never lowers UIDNEXT; an acknowledged APPEND is consistent, present under the old UIDNEXT and survives a restart; "
         "the variant with a delivery made while the server is down is refuted (recorded finding). On the implementation the "
         "server is killed (os._exit in a child) before each primitive durable effect (SQL statement/commit, file add/remove, "
         ".mh_sequences rewrite, pack, utime, rename, symlink, rmtree) of histories covering first start-up + migrations, "
         "APPEND/STORE/EXPUNGE/CLOSE, COPY/MOVE, packing, namespace commands; restarted on the same directory like "
         "IMAPUserServer.run does; every mailbox selected and fetched; the ledger of acknowledged results compared.",
    note=TB + "Assumed: SQLite's commit is atomic and durable, file operations are atomic (no torn writes / fsync reordering); a killed "
         "process loses memory and the open transaction only. The Coq model covers one mailbox's files + row and the 'files first, "
         "commit last' order, which the check re-observes on every run.", ref="6/C11")
CHECKS["C17"] = dict(
    technique="Coq refinement + invariant proofs (table of mailbox rows vs reference tree, over all histories; wildcard matcher = RFC 3501 relation) + differential correspondence of histories and of the matcher, evaluated inside Coq",
    text="Theorems: the matcher built by _mbox_pattern_to_re is RFC 3501's */% relation for all patterns and names, INBOX in any "
         "spelling; for every history of CREATE/DELETE/RENAME/SUBSCRIBE/UNSUBSCRIBE/APPEND/SELECT/restart the model's table has no "
         "duplicate names and stands for the reference tree with the reference results; LIST/LSUB answer exactly the matching "
         "existing/subscribed names once; \\HasChildren iff an existing mailbox lies below and \\Noselect iff placeholder; RENAME "
         "moves the subtree with every record intact; INBOX cannot be deleted; a refused command changes nothing; a deleted leaf "
         "is gone. Tied by running generated histories (restarts, 55-pattern grammar x LIST/LSUB, references, LIST-EXTENDED options) "
         "on the real objects and comparing results, LIST answers, the mailboxes table, the directories and the messages.",
    note=TB + "Modelled not verified: Python re for the three constructs; SQLite and POSIX directory operations as atomic; disk = table "
         "measured after every command; parser normalisation (C08/C09); \\Marked/\\Unmarked projected away; guard name_ok (the two "
         "recorded findings); commands atomic (C10).", ref="6/C17")
CHECKS["C08"] = dict(
    technique="Coq proofs of completeness, totality and soundness of a hand-written Gallina mirror of asimap/parse.py against an RFC 3501 grammar given as a printer with free choices (all inputs, no bound) + regex/table pins + differential correspondence of the real IMAPClientCommand against the model, evaluated inside Coq",
    text="Proved for all inputs: every sentence of the command grammar (RFC 3501 + the extensions the server announces), in any letter "
         "case, string form and spelling choice, parses to exactly its AST with nothing left; every byte string yields a command or "
         "BAD, never another failure or unbounded recursion; every accepted input below 10^4300 octets yields a well-formed AST whose "
         "canonical sentence parses to the same AST. Exact INBOX (any case, any string form, whole name only), escape decoding, "
         "literal-by-count, set/date/section decoding are lemmas. Refuted with witnesses and recorded as findings: text after a "
         "complete command is ignored (C08-trailing-text); an APPEND year below 0100 is remapped (C08-datetime-2digit-year). Tied by "
         "pinning the regex source texts and keyword tables and by parsing generated sentences, near-miss sentences (one "
         "well-formedness condition broken) and mutated byte strings with both the real parser and the model.",
    note=TB + "The model is hand-written and tied by correspondence, not generated. Modelled not verified: Python re semantics for the "
         "pinned expressions, str.lower, int() and its 4300-digit limit, os.path.normpath (C09's model, bridge lemma), datetime.date, "
         "email.utils.parsedate_to_datetime. email.message_from_bytes is outside the model (the AST carries the literal octets). "
         "list_reference and fetch_peek are compared by the harness only.", ref="6/C08")
NOT_YET = {}

props = [json.loads(l) for l in (V / "properties.jsonl").read_text().splitlines() if l.strip()]
checks, na = [], []
for p in props:
    pid = p["id"]
    if pid in CHECKS:
        c = CHECKS[pid]
        checks.append({
            "property_id": pid,
            "quick_cmd": f"./check {pid} quick",
            "thorough_cmd": f"./check {pid} thorough",
            "evidence_file": f"/verif/evidence/{pid}.json",
            "replay_cmd_template": f"./check {pid} --replay {{path}}",
            "engine": "coq+harness",
            "level_claimed": {"category": c.get("category", "proof"), "text": c["text"], "design_ref": c["ref"]},
            "level_note": c["note"],
            "technique": c["technique"],
        })
    else:
        na.append({"property_id": pid, "reason": NOT_YET.get(pid, "check not built yet in this round (work in progress; see DESIGN.md section 9)")})
m = {
    "version": 1,
    "setup_cmd": "make -C /verif setup",
    "hooks": {"guard": "ASIMAP_VERIF", "enable": "no source hooks: the harness monkey-patches from its own process",
              "baseline_off_cmd": "cd /repo && /venv/bin/python -m pytest -ra -q -p no:cacheprovider --timeout=900 --continue-on-collection-errors",
              "source_commits": [], "add_only": True},
    "engines": [
        {"name": "coq", "path": "/verif/coq", "serves_properties": sorted(CHECKS), "kind_free_text": "Coq 8.16.1 development: Base, Gen (regenerated), Spec, Model, Proofs, Properties"},
        {"name": "py2v", "path": "/verif/tools/py2v.py", "serves_properties": ["C15", "C18", "C20", "C04", "C07"], "kind_free_text": "fail-closed Python-to-Gallina translator for pure functions and constant tables"},
        {"name": "harness", "path": "/verif/harness", "serves_properties": sorted(CHECKS), "kind_free_text": "in-process driver of the real asimap classes under a virtual clock; correspondence and failing-input search"},
    ],
    "checks": checks,
    "not_applicable": na,
    "notes": "See DESIGN.md. known_findings.json lists recorded findings and fixed defects.",
}
(V / "MANIFEST.json").write_text(json.dumps(m, indent=1))
print("checks:", [c["property_id"] for c in checks], "n/a:", len(na))
